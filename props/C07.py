"""
C07 - results and final memory do not depend on engine or storage layout.
Corollary of C01 (every loop refines the same machine step) plus the representation invariant Rep of the
native MemoryObject: established/preserved by every helper and by every path of the loops, in flat, hybrid
and paged storage, with the last-ops ring.  Bounded: layouts around page/window edges on every engine,
final memory of every segment word and the last-ops list compared.
"""
from __future__ import annotations

from typing import List

from bounded import isolated
from props import C01c
from props.native_common import HELPERS, VALIDITY, add_native_functions, helper_jobs, loader_jobs, native_assumptions, ring_jobs, ring_report, validity_jobs
from vc.common import Report, main_wrapper, run_and_discharge

PROP = 'C07'


def jobs(tier: str) -> List[tuple]:
    th = tier == 'thorough'
    js: List[tuple] = []
    js.append((C01c.unit_loop, ('run_paged_loop_impl', 16, 0)))
    if th:
        for w in C01c.WIDTHS:
            js.append((C01c.unit_loop, ('run_paged_loop_impl', w, 1)))  # the ring clone: flat, hybrid and paged storage
            js.append((C01c.unit_loop, ('run_flat_loop_impl', w, 0)))
            js.append((C01c.unit_loop, ('run_paged_loop_impl', w, 0)))
    js += helper_jobs(C01c.WIDTHS if th else (64,))
    js += validity_jobs()
    js += loader_jobs(C01c.WIDTHS if th else (32,))
    js += ring_jobs()
    return js


def body(tier: str, seed: int) -> int:
    rep = Report(PROP, 'quick' if tier.startswith('replay') else tier, seed, 'proof', f'./check {PROP} --tier {tier}')
    run_and_discharge(rep, jobs(tier))
    add_native_functions(rep, ('run_paged_loop_impl', 'run_flat_loop_impl') + HELPERS, 'paged loop with_ring=1 (symbolic flat pointer: flat / hybrid / paged storage), helpers; quick: w=16 loop, w=64 helpers; thorough: all widths and loops')
    add_native_functions(rep, ('Memory_set_words',), 'bulk load before the storage decision (page-backed): loop invariant absM = entry memory + first i items masked; Rep; reference balance')
    add_native_functions(rep, VALIDITY + ('Memory_add_segment',), 'against the definition of the ghost valid-set V: loop invariants (linear scan, binary search over disjoint ordered ranges, first-intersection fast range, merge loop with a ghost witness map); width independent')
    ring_report(rep)
    native_assumptions(rep)
    rep.assume('[B only] mem_decide_storage (flat-window construction and copy-in of the loaded pages), the page hash table, build_run_result (tuple construction around last_ops_ring_to_list), run_measured_loop, Memory_set_words/add_segment AFTER a storage decision (API misuse): exercised by the bounded layout runs, not under contract')
    rep.notes.append('Rep (R2 flat array, R3 word range, R4 validity soundness, R5 cache coherence, R6, normalisation) preserved on every path; ring content invariant ring[k % len] == ip of op k for the last min(writes, len) ops: established for the fresh ring, preserved by each op\'s store (ring_lemma), consumed by last_ops_ring_to_list (the per-op store itself - unit_loop(run_paged_loop_impl, w, 1) - is discharged in the thorough tiers of C07 and C11; the quick tiers take it as the assumed loop contract)')
    th = tier == 'thorough'
    isolated.run(rep, 'directed', 0, seed)
    isolated.run(rep, 'layouts', 6000 if th else 500, seed)
    return rep.finish()


if __name__ == '__main__':
    main_wrapper(PROP, body)
