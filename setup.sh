#!/bin/bash
# Builds /verif/.venv offline: python 3.12 + z3-solver + cvc5 + jsonschema + hypothesis from the
# local wheelhouse, with a .pth overlay that exposes /venv's site-packages (sly, pytest, ...).
# The repository itself is always imported from /repo's working tree (PYTHONPATH=/repo).
set -euo pipefail
cd "$(dirname "$0")"
export PIP_NO_INDEX=1
PY=/root/.pyenv/versions/3.12.1/bin/python3
[ -x "$PY" ] || PY=$(readlink -f /venv/bin/python)
if [ ! -x .venv/bin/python ] || ! .venv/bin/python -c "import z3, cvc5, jsonschema, sly" 2>/dev/null; then
  rm -rf .venv
  "$PY" -m venv .venv
  .venv/bin/pip install -q --no-index --find-links /opt/veriftools/wheels z3-solver cvc5 jsonschema hypothesis >/dev/null
  SP=$(.venv/bin/python -c "import sysconfig;print(sysconfig.get_paths()['purelib'])")
  echo "import site; site.addsitedir('/venv/lib/python3.12/site-packages')" > "$SP/_overlay.pth"
fi
.venv/bin/python -c "import z3, cvc5, jsonschema, sly; print('verif venv ok: z3', z3.get_version_string())"
mkdir -p evidence replays
