"""tools/unit.py <prop> <unit-function> [args...] : run one verification unit and show timing / failures"""
import importlib, sys, time
sys.path[:0] = ['/verif', '/repo']
mod = importlib.import_module('props.' + sys.argv[1])
name = sys.argv[2]
args = [int(a) if a.lstrip('-').isdigit() else (a == 'True' if a in ('True', 'False') else a) for a in sys.argv[3:]]
t = time.time()
res = getattr(mod, name)(*args)
dt = time.time() - t
bad = [d['r'] for d in res if d['r'].status not in ('proved', 'covered')]
print(name, args, 'n=', len(res), 'bad=', len(bad), 't=%.1f' % dt, 'solver=%.1f' % sum(d['r'].seconds for d in res))
for r in bad[:14]:
    print('  ', r.name, r.status, r.backend, '%.1f' % r.seconds, r.detail[:60])
for d in sorted(res, key=lambda d: -d['r'].seconds)[:4]:
    print('  slow', d['r'].name, '%.1f' % d['r'].seconds, d['r'].status)
