"""tools/unit.py <prop> <unit-function> [args...] : run one verification unit and show timing / failures"""
import importlib, sys, time
sys.path[:0] = ['/verif', __import__('os').environ.get('VERIF_REPO', '/repo')]
mod = importlib.import_module('props.' + sys.argv[1])
name = sys.argv[2]
args = [int(a) if a.lstrip('-').isdigit() else (a == 'True' if a in ('True', 'False') else a) for a in sys.argv[3:]]
t = time.time()
out = getattr(mod, name)(*args)
from vc.common import discharge_pool
outs = out if isinstance(out, list) else [out]
gen = time.time() - t
res = [dict(r=r) for r in discharge_pool([o for u in outs for o in u['obligations']])]
dt = time.time() - t
bad = [d['r'] for d in res if d['r'].status not in ('proved', 'covered')]
print(name, args, 'gen=%.1f' % gen, 'n=', len(res), 'bad=', len(bad), 't=%.1f' % dt, 'solver=%.1f' % sum(d['r'].seconds for d in res))
for r in bad[:14]:
    print('  ', r.name, r.status, r.backend, '%.1f' % r.seconds, r.detail[:60])
for d in sorted(res, key=lambda d: -d['r'].seconds)[:4]:
    print('  slow', d['r'].name, '%.1f' % d['r'].seconds, d['r'].status)
