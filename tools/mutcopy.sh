#!/bin/bash
# tools/mutcopy.sh <patch.diff> <prop> [tier]  -- run a check against a scratch COPY of /repo with the seeded change
# applied (used while other work reads /repo; equivalent to: git -C /repo apply; ./check; git -C /repo checkout -- .)
set -u
patch="$1"; prop="$2"; tier="${3:-quick}"
d=$(mktemp -d /tmp/mutcopy.XXXXXX)
rsync -a --exclude .git /repo/ "$d/repo/"
patch -s -p1 -d "$d/repo" < "$patch" || { echo "patch does not apply"; rm -rf "$d"; exit 9; }
cd /verif && VERIF_REPO="$d/repo" VERIF_EVIDENCE_DIR="$d/evidence" ./check "$prop" --tier "$tier" 2>&1 | grep -E "VIOLATION|KNOWN|UNDECIDED|CRASH|^\[|obligation:|what:" | head -${MUT_LINES:-12}
rc=${PIPESTATUS[0]}
rm -rf "$d"
echo "mutcopy rc=$rc"
