"""tools/confirm_seeded.py <src-root> [ids...]: for each <src-root>/<ID>/out/<k>/{patch.diff,demo.py,notes.md}
confirm in a scratch copy of /repo (outside /repo and /verif, removed afterwards) that the change applies, that the
pinned test suite still passes with it, that its demo fails with it and passes without it; then store it as
/verif/seeded/<ID>-<k>/ (patch.diff, demo.py, notes.md, meta.json).  Nothing is ever applied to /repo."""
import json, re, shutil, subprocess, sys, tempfile
from pathlib import Path

root = Path(sys.argv[1])
ids = sys.argv[2:] or sorted(p.name for p in root.iterdir() if p.is_dir())
PY = '/venv/bin/python'
TESTS = [PY, '-m', 'pytest', '-ra', '-q', '-p', 'no:cacheprovider', '--timeout=900', '--continue-on-collection-errors']


def sh(cmd, cwd, timeout=1500):
    p = subprocess.run(cmd, cwd=cwd, capture_output=True, text=True, timeout=timeout)
    return p.returncode, (p.stdout + p.stderr)


for pid in ids:
    for k in ('1', '2'):
        src = root / pid / 'out' / k
        if not (src / 'patch.diff').exists():
            continue
        dst = Path('/verif/seeded') / f'{pid}-{k}'
        meta_old = json.loads((dst / 'meta.json').read_text()) if (dst / 'meta.json').exists() else {}
        with tempfile.TemporaryDirectory(prefix='seedconf.') as td:
            clean, mut = Path(td) / 'clean', Path(td) / 'mut'
            for d in (clean, mut):
                subprocess.run(['rsync', '-a', '--exclude', '.git', '/repo/', str(d) + '/'], check=True)
            rc, out = sh(['patch', '-s', '-p1', '-i', str(src / 'patch.diff')], mut)
            applies = rc == 0
            touches_c = '_fjcore.c' in (src / 'patch.diff').read_text()
            if touches_c:
                sh([PY, 'build_fjcore.py'], mut)
            rc_t, out_t = sh(TESTS, mut)
            summary = (re.findall(r'\d+ passed[^\n]*', out_t) or ['?'])[-1]
            rc_dm, out_dm = sh([PY, str(src / 'demo.py')], mut, 600)
            rc_dc, out_dc = sh([PY, str(src / 'demo.py')], clean, 600)
        notes = (src / 'notes.md').read_text() if (src / 'notes.md').exists() else ''
        title = (notes.strip().splitlines() or ['?'])[0].lstrip('# ').strip()
        needs = ''
        m = re.search(r'(?is)(needed to manifest|needs to manifest|what it needs|to manifest)[^\n]*\n?(.*?)(\n\s*\n|\Z)', notes)
        if m:
            needs = (m.group(0)).strip()[:900]
        ok = applies and rc_t == 0 and rc_dm != 0 and rc_dc == 0
        meta = dict(property_id=pid, change=title, needs_to_manifest=needs, files_changed=re.findall(r'^\+\+\+ b/(\S+)', (src / 'patch.diff').read_text(), re.M),
                    confirmed=dict(applies=applies, tests_with_change=summary, tests_rc=rc_t, demo_with_change_rc=rc_dm, demo_on_clean_rc=rc_dc, demo_with_change_tail=out_dm.strip()[-300:], ok=ok),
                    detected_by=meta_old.get('detected_by', []))
        print(pid, k, 'OK' if ok else 'NOT-CONFIRMED', summary, 'demo(mut)=', rc_dm, 'demo(clean)=', rc_dc, flush=True)
        if ok:
            dst.mkdir(parents=True, exist_ok=True)
            for f in ('patch.diff', 'demo.py', 'notes.md'):
                if (src / f).exists():
                    shutil.copy(src / f, dst / f)
            (dst / 'meta.json').write_text(json.dumps(meta, indent=1) + '\n')
