"""tools/relock.py [ids...] : record the names of the obligations discharged on the unchanged tree
(from evidence/<id>.obligations.json of the last run) in obligations.lock.json.  Run by hand only."""
import json, sys
sys.path.insert(0, '/verif')
from vc.common import stable_name
from pathlib import Path
V = Path('/verif')
lock = json.loads((V / 'obligations.lock.json').read_text()) if (V / 'obligations.lock.json').exists() else {}
ids = sys.argv[1:] or [p.name.split('.')[0] for p in (V / 'evidence').glob('*.obligations.json')]
for i in ids:
    res = json.loads((V / 'evidence' / f'{i}.obligations.json').read_text())
    lock[i] = sorted({stable_name(r['name']) for r in res if r['kind'] == 'vc' and r['status'] == 'proved'})
    print(i, len(lock[i]))
(V / 'obligations.lock.json').write_text(json.dumps(lock, indent=0) + '\n')
