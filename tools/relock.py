"""tools/relock.py [ids...] : record the names of the obligations discharged on the unchanged tree
(from evidence/<id>.obligations.json of the last run) in obligations.lock.json.  Run by hand only."""
import json, sys
sys.path.insert(0, '/verif')
from vc.common import stable_name
from pathlib import Path
V = Path('/verif')
lock = json.loads((V / 'obligations.lock.json').read_text()) if (V / 'obligations.lock.json').exists() else {}
ids = sys.argv[1:] or [p.name.split('.')[0] for p in (V / 'evidence').glob('*.obligations.json')]
for i in ids:
    res = json.loads((V / 'evidence' / f'{i}.obligations.json').read_text())
    lock[i] = sorted({stable_name(r['name']) for r in res if r['kind'] == 'vc' and r['status'] == 'proved'})
    print(i, len(lock[i]))
(V / 'obligations.lock.json').write_text(json.dumps(lock, indent=0) + '\n')

# solver hints: for the obligations that took more than a few seconds, which back end decided them (order only)
hints_p = V / 'solver_hints.json'
hints = json.loads(hints_p.read_text()) if hints_p.exists() else {}
for i in ids:
    res = json.loads((V / 'evidence' / f'{i}.obligations.json').read_text())
    slow = {}
    for r in res:
        if r['kind'] == 'vc' and r['status'] == 'proved' and r.get('seconds', 0) > 3:
            k = stable_name(r['name'])
            if k not in slow or r['seconds'] > slow[k][0]:
                slow[k] = (r['seconds'], r['backend'])
    for k in [k for k in hints if k.startswith(tuple())]:
        pass
    for k, (_, b) in slow.items():
        hints[k] = b
    print(i, 'hints', len(slow))
hints_p.write_text(json.dumps(hints, indent=0, sort_keys=True) + '\n')
