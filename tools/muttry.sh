#!/bin/bash
# tools/muttry.sh <patch> <script> [args]: apply patch to /repo, run a python script with the verif venv, revert
cd /repo && git apply "$1" || exit 9
cd /verif && PYTHONPATH=/verif:/repo .venv/bin/python "${@:2}"
git -C /repo checkout -- .
