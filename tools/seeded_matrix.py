"""tools/seeded_matrix.py [ids...] : run every confirmed seeded change under /verif/seeded through the registered check
of its property (quick tier) on a scratch copy of /repo (tools/mutcopy.sh: /repo itself is never touched), and record
in seeded/<ID>-<k>/meta.json which obligations fired.  Prints one line per change.  Sequential: each check uses all cores."""
import json, re, subprocess, sys, time
from pathlib import Path

root = Path('/verif/seeded')
only = set(sys.argv[1:])
for d in sorted(root.iterdir()):
    meta_p = d / 'meta.json'
    if not meta_p.exists() or (only and d.name not in only and d.name.split('-')[0] not in only):
        continue
    meta = json.loads(meta_p.read_text())
    prop = meta['property_id']
    t = time.time()
    p = subprocess.run(['/verif/tools/mutcopy.sh', str(d / 'patch.diff'), prop, 'quick'], capture_output=True, text=True, env={**__import__('os').environ, 'MUT_LINES': '400'})
    out = p.stdout
    rc = int((re.findall(r'mutcopy rc=(\d+)', out) or ['9'])[-1])
    obls = []
    for m in re.finditer(r'obligation: (\S+)', out):
        o = re.sub(r'path\d+', 'path*', m.group(1))
        if o not in obls:
            obls.append(o)
    n_viol = len(re.findall(r'^VIOLATION', out, re.M))
    kinds = sorted({'bounded' if o.startswith('bounded:') else 'deductive' for o in obls})
    meta['detected_by'] = [dict(check=f'./check {prop} --tier quick', exit=rc, violation_lines=n_viol, kinds=kinds, obligations=obls[:8], seconds=round(time.time() - t))]
    meta_p.write_text(json.dumps(meta, indent=1) + '\n')
    print(d.name, 'rc=', rc, 'violations=', n_viol, kinds, (obls[:2] or ['-']), f'{time.time() - t:.0f}s', flush=True)
