"""tools/gen_manifest.py : writes MANIFEST.json from the table below (kept here so the manifest stays consistent)."""
import json
from pathlib import Path

TB = 'home-made VC generators (pyvc over python ast; cvc over clang JSON AST) are trusted; z3/cvc5; assumed contracts of struct, lzma, json, deque, CPython API and libc are listed in each evidence file'
CHECKS = {
 'C06': ('proof', 'Writer/Reader methods verified path by path against Inv_W with a ghost data pool and against image(); round-trip and version-independence lemmas; struct/lzma preconditions are call-site obligations. Bounded companion: random writer call sequences on the real writer+reader (never counted as proved).', '§4/C06',
         'contract-based deductive verification: VCs generated from the real python AST (pyvc), discharged by z3/cvc5; loop invariants; ghost state'),
 'C17': ('proof', 'read_bit/write_bit/get_output of every device verified for all states against a ghost-stream class invariant (induction over the call sequence); keyboard polling protocol via contracts of _poll/_queue_*; bounded companion enumerates all short sequences on the real classes.', '§4/C17',
         'contract-based deductive verification: class invariant + ghost streams, VCs from the real python AST (pyvc, bit-vector ints with no-overflow bounds), z3'),
}
props = [json.loads(l) for l in open('/verif/properties.jsonl')]
checks = []
for p in props:
    if p['id'] not in CHECKS:
        continue
    cat, text, ref, tech = CHECKS[p['id']]
    checks.append(dict(property_id=p['id'], quick_cmd=f"./check {p['id']} --tier quick", thorough_cmd=f"./check {p['id']} --tier thorough",
                       evidence_file=f"/verif/evidence/{p['id']}.json", replay_cmd_template=f"./check {p['id']} --replay {{path}}",
                       level_claimed=dict(category=cat, text=text, design_ref=ref), level_note=TB, technique=tech))
na = [dict(property_id=p['id'], reason='check not built yet in this session (see DESIGN.md §7 order of work); will be claimed once its contracts are machine-checked') for p in props if p['id'] not in CHECKS]
m = dict(version=1, setup_cmd='./setup.sh',
         hooks=dict(guard='FLIPJUMP_VERIF', enable='no hooks are needed: contracts live in sidecar files under /verif/contracts and every check re-reads /repo\'s working tree', baseline_off_cmd='cd /repo && /venv/bin/python -m pytest -ra -q -p no:cacheprovider --timeout=900 --continue-on-collection-errors', source_commits=[], add_only=True),
         engines=[dict(name='pyvc', path='/verif/vc/pyvc', serves_properties=sorted(CHECKS), kind_free_text='symbolic executor / VC generator for the python subset of the functions under contract; z3 + cvc5 back ends')],
         checks=checks, notes='exit codes: 0 held, 1 VIOLATION, 2 undecided (never a VIOLATION line), 3 checker crash. fix: commits in /repo are listed in known_findings.json (fixed entries suppress nothing).', not_applicable=na)
Path('/verif/MANIFEST.json').write_text(json.dumps(m, indent=1) + '\n')
print(len(checks), 'checks;', len(na), 'not claimed')
