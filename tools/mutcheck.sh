#!/bin/bash
# tools/mutcheck.sh <patch.diff> <prop> [tier]   -- apply a seeded change to /repo, run the check, undo.
set -u
patch="$1"; prop="$2"; tier="${3:-quick}"
cd /repo || exit 9
if ! git diff --quiet; then echo "repo dirty"; exit 9; fi
git apply "$patch" || { echo "patch does not apply"; exit 9; }
cd /verif && ./check "$prop" --tier "$tier" 2>&1 | grep -E "VIOLATION|KNOWN|UNDECIDED|CRASH|^\[|obligation:|what:" | head -${MUT_LINES:-12}
rc=${PIPESTATUS[0]}
git -C /repo checkout -- . 
echo "mutcheck rc=$rc"
