"""tools/seeded_table.py : markdown table of the seeded changes and what caught them (from seeded/*/meta.json)"""
import json
from pathlib import Path

print('| change | property | what it breaks (needs, to manifest) | caught by `./check <id> --tier quick` | firing obligations (first) |')
print('|---|---|---|---|---|')
for d in sorted(Path('/verif/seeded').iterdir()):
    mp = d / 'meta.json'
    if not mp.exists():
        continue
    m = json.loads(mp.read_text())
    det = (m.get('detected_by') or [{}])[0]
    kinds = '+'.join(det.get('kinds', [])) or '-'
    res = f"exit {det.get('exit', '?')} ({kinds})" if det else 'not run'
    obl = '; '.join(f'`{o}`' for o in det.get('obligations', [])[:2])
    change = m['change'].replace('|', '/')[:110]
    print(f"| `seeded/{d.name}` | {m['property_id']} | {change} | {res} | {obl[:230]} |")
