"""tools/validate.py : MANIFEST.json and every committed evidence file against the given schemas, plus the consistency the
harness checks (a proof-level record must have discharged == obligations and nothing undecided)."""
import json, sys
from pathlib import Path
import jsonschema

V = Path('/verif')
ms = json.loads(Path('/root/.vp/MANIFEST.schema.json').read_text())
es = json.loads(Path('/root/.vp/EVIDENCE.schema.json').read_text())
m = json.loads((V / 'MANIFEST.json').read_text())
jsonschema.validate(m, ms)
bad = 0
for c in m['checks']:
    p = Path(c['evidence_file'])
    if not p.exists():
        print('MISSING', p); bad += 1; continue
    e = json.loads(p.read_text())
    try:
        jsonschema.validate(e, es)
    except jsonschema.ValidationError as x:
        print('INVALID', p, x.message[:200]); bad += 1; continue
    cov = e['coverage']
    if cov.get('undecided'):
        print('UNDECIDED in', p, cov['undecided'][:2]); bad += 1
    if cov.get('obligations', 0) != cov.get('discharged', 0):
        print('NOT ALL DISCHARGED', p, cov.get('obligations'), cov.get('discharged')); bad += 1
    if e.get('violations'):
        print('VIOLATIONS recorded in', p); bad += 1
    print(c['property_id'], e['tier'], e['level'], 'obligations', cov.get('obligations'), 'evaluations', cov.get('evaluations'), 'wall', e.get('wall_s'))
print('problems:', bad)
sys.exit(1 if bad else 0)
